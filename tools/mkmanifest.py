#!/usr/bin/env python3
import json, os
ROOT = os.path.dirname(os.path.dirname(os.path.abspath(__file__)))
O = json.load(open(os.path.join(ROOT, "obligations.json")))
props = [json.loads(l) for l in open(os.path.join(ROOT, "properties.jsonl"))]
TEXT = json.load(open(os.path.join(ROOT, "tools", "levels.json")))
checks = []
for p in props:
    pid = p["id"]
    o = O[pid]
    t = TEXT[pid]
    nthm = sum(len(v) for v in o["theorems"].values())
    if o.get("pending"):
        t = dict(t, text="(Property theorems not yet written: at this commit the check rests on the regenerated-table ties and the correspondence only.) Planned: " + t["text"])
    checks.append({
        "property_id": pid,
        "quick_cmd": "./check %s quick" % pid,
        "thorough_cmd": "./check %s thorough" % pid,
        "evidence_file": "/verif/evidence/%s.json" % pid,
        "replay_cmd_template": "./check %s quick --replay {path}" % pid,
        "engine": "lean4-proof+correspondence",
        "level_claimed": {"category": o["level"], "text": t["text"], "design_ref": "DESIGN.md §6 " + pid},
        "level_note": t["note"],
        "technique": t["technique"],
    })
m = {
    "version": 1,
    "setup_cmd": "./setup.sh",
    "hooks": {"guard": "verif", "enable": "go build -tags verif (the harness uses only the exported API; no source hooks exist)",
              "baseline_off_cmd": "cd /repo && go test -count=1 ./...", "source_commits": [], "add_only": True},
    "engines": [{"name": "lean4-proof+correspondence", "path": "/verif/check", "serves_properties": [p["id"] for p in props],
                 "kind_free_text": "Lean 4 model + theorems (lean/), translator regenerating tables AND Lean definitions of the visitor and the Operation implementations from /repo (extract/), Go correspondence harness piping cases to the compiled Lean driver (harness/)"}],
    "checks": checks,
    "not_applicable": [],
    "notes": "Ten genuine defects (D1-D10) were repaired in /repo by `fix:` commits (known_findings.txt, DESIGN.md §7); two known findings are recorded (C09: version components >= 2^64; C07: a value nested deeper than the goroutine stack). The visitor and the Operation implementations are translated from the Go source on every run and proved equal to the model (DESIGN.md §4.4).",
}
json.dump(m, open(os.path.join(ROOT, "MANIFEST.json"), "w"), indent=1)
print("MANIFEST.json written with", len(checks), "checks")
