#!/usr/bin/env python3
"""Writes /verif/obligations.json: per property the Lean modules/theorems (proof obligations), the tie modules,
the evidence level and the trusted base. Edited by hand when theorems are added."""
import json, os
ROOT = os.path.dirname(os.path.dirname(os.path.abspath(__file__)))

PARSE = {"RulesModel.Proofs.ParseComplete": ["Rules.P.parse_iff", "Rules.P.D_unique"]}
LEXG = {"RulesModel.Model.Regex": ["Rules.Regex.deriv_iff", "Rules.Regex.longest_spec"],
        "RulesModel.Model.Lexer": ["Rules.bestMatch_pos", "Rules.lexFuel_partition"]}
MODELLED = ["jsonquery_visitor_impl.go is translated into Lean on every run and proved equal to the model (Proofs/VisitorGen; when that is `not established` the hand transcription validated by the correspondence carries it); hand transcription of *_operation.go / evaluate.go / nester_error.go into Lean (validated by the correspondence check on every run; recognised rows of the operation table are tied semantically)",
            "Go standard library (strconv, strings.ToLower, encoding/json, fmt), blang/semver v3.5.1 and the ANTLR 4.13 runtime: modelled, not verified",
            "lexer tables: the decoder of the serialised ATN (extract/atn.go) and Model/ATN.atnM as the meaning of a lexer ATN are trusted; their language equality with the grammar's token rules is a kernel-checked theorem (Tie/LexerATNProof) when established"]

def P(level, ties, thms, expl, extra_tb=(), assumptions=()):
    return {"level": level, "ties": ties, "theorems": thms, "explanation": expl, "trusted_base": MODELLED + list(extra_tb), "assumptions": list(assumptions)}

def merge(*ds):
    out = {}
    for d in ds:
        for k, v in d.items():
            out.setdefault(k, [])
            out[k] += [x for x in v if x not in out[k]]
    return out

O = {}
EXTRA = json.load(open(os.path.join(ROOT, "tools", "theorems.json"))) if os.path.exists(os.path.join(ROOT, "tools", "theorems.json")) else {}
def T(pid, base=None):
    return merge(base or {}, EXTRA.get(pid, {}))

O["C01"] = P("proof", ["ParserRules"], T("C01", PARSE), "compound = Boolean combination: refinement theorem Impl visitor = Spec combine + parse = grammar relation; correspondence L-comb")
O["C02"] = P("proof", [], T("C02"), "locality: processTree t = combine (processTree leaf) t; path stack machine = denote")
O["C03"] = P("proof", ["OpsNumeric", "Dispatch", "TokenConsts"], T("C03"), "numeric leaves agree with the order of Q on exact models of int64/binary64")
O["C04"] = P("proof", ["OpsString", "Dispatch", "TokenConsts"], T("C04"), "string leaves = relation on lower-cased byte strings, for every lower-casing function")
O["C05"] = P("proof", ["G4", "ParserRules", "LexerATN"], T("C05", merge(PARSE, LEXG)), "only sentences are evaluated: lexParse = grammar; syntax error stored by NewEvaluator and returned by Process")
O["C06"] = P("proof", ["OpsSupport", "Dispatch"], T("C06"), "failure iff reached, final; mismatch never errors")
O["C07"] = P("proof", ["Observers"], T("C07"), "panics are values in the model; every entry point total; robustness exploration in a watched child process",
             ["fatal Go runtime errors (stack exhaustion, OOM) cannot be exhibited by the model; only observed"])
O["C08"] = P("proof", ["Dispatch"], T("C08"), "`in` = any eq over the list")
O["C09"] = P("proof", ["OpsVersion", "Dispatch", "TokenConsts"], T("C09", {"RulesModel.Model.SemverOrder": ["Rules.Sv.good_lex"]}), "version leaves = semver precedence (components < 2^64)")
O["C10"] = P("proof", ["OpsNullBool", "Dispatch"], T("C10"), "pr / null / bool leaves by denote")
O["C11"] = P("proof", ["PkgState"], T("C11"), "history independence of the evaluator state machine")
O["C12"] = P("other", ["PkgState"], T("C12"), "partial: interleaving model proved non-interfering; Go memory-model races only observed with the race detector",
             ["Go race detector; the interleaving model treats calls on private state as atomic steps"])
O["C13"] = P("other", ["Observers"], T("C13"), "partial: frame theorem on immutable model values + deep-snapshot correspondence (aliasing writes are not expressible in the model)")
O["C14"] = P("proof", [], T("C14"), "three entry points are definitional wrappers in the model; correspondence side by side")
O["C15"] = P("proof", ["G4", "ParserRules", "TokenConsts", "Dispatch", "LexerATN"], T("C15", PARSE), "respelling invariance at token level; every spelling lexes to its kind (finite table, decide); character level by correspondence")
O["C16"] = P("proof", ["OpsErrMode"], T("C16"), "diagnostic iff a reached comparison is undecidable")
O["C17"] = P("proof", [], T("C17"), "Boolean algebra laws with failures on Spec combine, transported by the refinement theorem")
O["C18"] = P("proof", ["OpsNumeric", "OpsString", "OpsVersion", "Dispatch", "TokenConsts"], T("C18"), "each family a consistent order")
O["C19"] = P("proof", [], T("C19"), "NestedError model: Original, Error JSON/fallback, Set override, idempotence")
O["C20"] = P("proof", ["G4", "ParserRules", "TokenConsts", "LexerATN"], T("C20", merge(PARSE, LEXG)), "model recogniser = documented grammar (proved); shipped generated code = model (correspondence)")
ASSUME = {
 "all": ["the Lean model (Impl layer) is a faithful transcription of the Go code it names: validated by the correspondence of this run, not proved",
         "the value quotient of DESIGN §1 (F1) is exact while the observer set of the hand-written code is unchanged (tie Observers)",
         "Go toolchain, standard library and third-party libraries behave as modelled (validated where a model-validation stream exists)"],
 "C03": ["a decimal literal denotes the binary64 value strconv.ParseFloat yields; int32/int64 attributes are claimed against integer literals only; integers across the int/float64 divide up to 2^53"],
 "C04": ["literals without backslash escapes; lower-casing = Go's strings.ToLower (every theorem holds for any lower-casing function)"],
 "C05": ["'outer whitespace' = what strings.TrimSpace removes"],
 "C07": ["fatal errors of the Go runtime cannot be exhibited by the model; they are only observed (watched child process)"],
 "C09": ["numeric components below 2^64 (beyond: known finding)"],
 "C11": ["parser caches (cold/warm) are outside the model; observed only"],
 "C12": ["calls on private evaluator state are atomic steps in the model; Go-memory-model races are only observed with the race detector"],
 "C13": ["model values are immutable: aliasing writes are caught only by the deep-snapshot correspondence"],
 "C15": ["C15_sentences_generated has no hypothesis about the sentence: for EVERY rule text the grammar accepts - names, numbers, string literals, negative integers and integers with exponents included - every rendering of its tree (any spelling of not and of the operators, optional blanks, newlines, comma blanks) reads back as that tree. What it uses of the table are facts proved on every run for the table regenerated from JsonQuery.g4: adj_separated_all, int_follow, spell_table (kernel evaluation), string_tokens_closed and signed_ok (these two depend on the syntactic form of the STRING, INT, DOUBLE and VERSION rules in the regenerated table; when the grammar file is rewritten equivalently they may stop checking and the statement falls back to the per-tree form below - never an alarm by itself)", "per-tree form (C15_render): every rendering, under every choice of the free spellings, of a tree that is well-formed in the decidable sense `wf` (every name / literal text / connective is a canonical token of its kind for the regenerated table, string literals closed, right operands primaries) is read back as that tree, given SignedOK of the table; `wf` is checked per tree (kernel-evaluated instances), and the engine's agreement with the model's lexer and parser is the metamorphic correspondence"],
 "C16": ["convertible literals; object-shaped paths (calls ended by a recovered panic are covered since repair D10)"],
 "C19": ["values attached with Set are abstracted to their JSON rendering by encoding/json (or 'not encodable')"],
 "C20": ["conformance of the generated Go parser is differential (accept/reject, tree shape), not a theorem; for the lexer TABLES (the serialised ATN in jsonquery_lexer.go) language equality with the token rules of the .g4, rule by rule and in priority order, is a kernel-checked theorem (lexer_atn_language) about the decoded tables under the ATN semantics of Model/ATN.lean; the ANTLR runtime that interprets the tables (longest match, priority) is trusted and compared differentially"],
}
# proof modules that depend on the SYNTACTIC form of a regenerated table (not only on its language): when the grammar
# file is rewritten equivalently they may stop checking although nothing is wrong; then the statement falls back to its
# per-token form and the check says so (never an alarm by itself)
O["C15"]["soft_theorems"] = {"RulesModel.Proofs.C15SignedTable": ["Rules.Signed.digits_dot", "Rules.Signed.signed_ok"], "RulesModel.Proofs.C15StringClosed": ["Rules.StrClosed.str_prefix_free", "Rules.StrClosed.string_tokens_closed", "Rules.Render.table_ok", "Rules.Render.C15_render_all", "Rules.Render.C15_sentences_generated", "Rules.Render.C15_sentences_generated_process"]}
# the shipped lexer tables against the grammar's token rules, checked by the kernel on every run (Tie/LexerATNProof.lean):
# a search for a bisimulation certificate per token rule + its check + NFA.rule_equiv. Soft: when the tables change the
# kernel evaluation may fail (then Tie/LexerATN - the translator's own comparison - names a distinguishing string and the
# correspondence runs it), and an unreadable ATN proves nothing
for pid in ("C05", "C15", "C20"):
    O[pid].setdefault("soft_theorems", {})["RulesModel.Tie.LexerATNProof"] = ["Rules.NFA.cert_sound", "Rules.NFA.rx_lang", "Rules.NFA.rule_equiv", "Rules.Tie.tables_checked", "Rules.Tie.lexer_atn_language", "Rules.Tie.model_token_on_tables"]
for pid, o in O.items():
    o["assumptions"] = ASSUME["all"] + ASSUME.get(pid, [])
    if not EXTRA.get(pid):
        o["pending"] = True
        if o["level"] == "proof":
            o["level"] = "other"
        o["explanation"] = "PROPERTY THEOREMS NOT YET WRITTEN - this check currently rests on the correspondence and the ties only. Planned: " + o["explanation"]
json.dump(O, open(os.path.join(ROOT, "obligations.json"), "w"), indent=1)
print("obligations.json written:", {k: sum(len(v) for v in o["theorems"].values()) for k, o in O.items()})
