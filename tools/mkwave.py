#!/usr/bin/env python3
"""tools/mkwave.py <root> [flavour]: prepares one scratch directory per property under <root> (outside /repo and /verif):
<root>/Cnn/wt  - a detached git worktree of /repo at HEAD,  <root>/Cnn/out - where the sub-agent leaves m1/ and m2/,
<root>/Cnn/PROMPT.md - the whole brief of the sub-agent: the text of the property and nothing from /verif.
Afterwards: tools/importwave.py <root> <tag>, then `git -C /repo worktree remove --force <root>/Cnn/wt` for each."""
import json, os, subprocess, sys

root = sys.argv[1]
flavour = sys.argv[2] if len(sys.argv) > 2 else ""
here = os.path.dirname(os.path.dirname(os.path.abspath(__file__)))
props = [json.loads(l) for l in open(os.path.join(here, "properties.jsonl"))]

FLAVOURS = {
    "": "",
    "maintenance": """
Extra request for this round: make each change look like ordinary maintenance that a reviewer would wave through - a
performance optimisation, a refactoring that moves code between files, support for one more Go type or input shape, a
clean-up of error handling, a dependency-style helper copied from elsewhere - and make the defect depend on at least TWO
independent conditions holding at once (for instance a particular operator AND a particular shape of value, or a
particular position in the rule AND something evaluated earlier), so that inputs chosen at random from a small pool do
not meet it. Prefer places and mechanisms you think a checker written from the property text alone would look at least.
""",
    "edges": """
Extra request for this round: aim at the EDGES of the input space rather than at ordinary inputs, and keep the change
plausible. Ideas (pick what fits the property): Go value shapes a JSON decoder never produces but a caller may pass -
typed nils, named types, pointers to scalars, arrays, maps with other key or value types, sized integers, float32,
json.Number, time.Time, values whose String method has a pointer receiver; numbers at the limits (MinInt64, 2^53, -0,
subnormals, NaN); texts with combining marks, title-case letters, characters whose lower case has another byte length,
NUL bytes, very long runs; rules that are very deep, very long, or repeat the same sub-rule many times; the second and
later uses of one evaluator; two evaluators for texts that differ only slightly. The defect should stay invisible for
plain JSON-like inputs and short rules.
""",
    "state": """
Extra request for this round: prefer defects that live in STATE rather than in a single computation - a cache (per
evaluator, per process, keyed by something slightly too coarse), a pool of reused objects with an incomplete reset, a
lazily built table, memoised results, a buffer or slice reused between calls or shared between values, a package-level
variable, a sync.Once capturing the first caller's data, an error value that is reused and mutated. The wrong behaviour
should need a particular HISTORY (an earlier call, rule, object or goroutine) and be invisible when every evaluation
starts from a fresh process or a fresh evaluator - but it must still violate the property as stated. If the property is
purely about one computation, make the state trigger WHICH inputs are computed wrongly.
""",
}

TEMPLATE = """# Seeding a defect that the existing tests do not catch

You are helping to evaluate a verification harness for the Go library nikunjy/rules (a small rules engine: an ANTLR parser
for a boolean query language over JSON-like objects, and a visitor that evaluates a rule against a
map[string]interface{{}}). A private copy of the repository is at `{wt}` (a git worktree; work ONLY there and in
`{out}`; never read or touch /verif or /repo). Go commands need
`export GOFLAGS=-mod=mod GOPROXY=off GOSUMDB=off GOTOOLCHAIN=local` (no network). The existing tests run with
`go build ./... && go test -count=1 ./...` (32 tests, all passing now).

The property below is supposed to hold of the library for every input. Your job: make TWO different, realistic changes to
the library (call them m1 and m2, independent of each other, each applied to the clean tree) such that

* the library still compiles and the existing test suite, unedited, still passes, and
* the property is now violated for some input, schedule or history - which you demonstrate with a small Go test
  (`demo_test.go`, first line a comment `// dir: parser` or `// dir: .` saying in which package directory it goes; test
  names start with `TestSeeded`) that FAILS with your change and PASSES on the unchanged tree.

Make the changes the kind a maintainer could plausibly commit, not sabotage that any input reveals: each should need
something specific to show up (a particular shape of rule or value, an order of calls, a boundary value, two things
coinciding). Different mechanisms for m1 and m2, please. Do not edit or add `_test.go` files in the patch, do not touch
go.mod/go.sum, do not add build tags.
{flavour}
## The property ({pid}: {title})

{statement}

Quantified over: {quant}

Why the existing tests cannot settle it: {why}

Where it lives (files / mechanisms): {anchors}

## What to deliver

For each of m1, m2 a directory `{out}/m1` (resp. `m2`) with
* `patch.diff` - `git diff` of your change against the clean worktree (it must apply with `git apply` to a clean tree),
* `demo_test.go` - the demonstration described above (or a `demo/` directory with a `main` program if a test cannot show it),
* `meta.json` - {{"property": "{pid}", "summary": "<what you changed and why it breaks the property>", "needs": "<what exactly an input/history must look like to hit it>", "files": [...], "how_to_run_demo": "<command>"}}.

Procedure for each change: edit the worktree; run build + the existing tests (must pass); copy the demo into the package
directory as `zz_seeded_demo_test.go` and run it (must fail); save `git diff` (without the demo file) as patch.diff;
restore the tree with `git checkout -- . && git clean -fdq`; run the demo again on the clean tree (must pass); remove the
demo file. NEVER use `git stash` (the stash is shared between worktrees). Leave the worktree clean when you finish.

If, while reading the code, you notice that the UNCHANGED library already violates the property for some input, say so in
your final message (with the input) - but still deliver two seeded changes that do not build on that.

Final message: for each change one paragraph - what, what it needs to show up, what you ran and saw.
"""

for p in props:
    pid = p["id"]
    d = os.path.join(root, pid)
    os.makedirs(os.path.join(d, "out"), exist_ok=True)
    wt = os.path.join(d, "wt")
    if not os.path.exists(wt):
        subprocess.run(["git", "-C", "/repo", "worktree", "add", "--detach", wt, "HEAD"], check=True, capture_output=True)
    a = p.get("anchors", {})
    anchors = "; ".join(a.get("files", [])) + ". " + " | ".join("%s (%s)" % (m.get("name"), m.get("where")) for m in a.get("mechanism", []))
    open(os.path.join(d, "PROMPT.md"), "w").write(TEMPLATE.format(wt=wt, out=os.path.join(d, "out"), pid=pid, title=p["title"],
        statement=p["statement"], quant=p["quantifier"]["text"], why=p["why_tests_cant"], anchors=anchors, flavour=FLAVOURS[flavour]))
print("prepared", len(props), "directories under", root)
