#!/usr/bin/env python3
"""tools/mutants.py [confirm|run] [names...]

confirm: for every /verif/seeded/<name>: the suite passes with the patch, the demo fails with it and passes without it.
run    : applies each patch to /repo (git apply), runs the quick check of the property it breaks (and, with --all,
         every other check to see which stay quiet), and restores /repo (git checkout -- . && git clean -fd).
Never leaves a patch applied; never commits in /repo."""
import json, os, re, shutil, subprocess, sys, time

ROOT = os.path.dirname(os.path.dirname(os.path.abspath(__file__)))
SEEDED = os.path.join(ROOT, "seeded")
REPO = os.environ.get("VERIF_REPO", "/repo")
ENV = dict(os.environ, GOFLAGS="-mod=mod", GOPROXY="off", GOSUMDB="off", GOTOOLCHAIN="local")


def sh(cmd, cwd=None, timeout=1800):
    p = subprocess.run(cmd, cwd=cwd, env=ENV, shell=isinstance(cmd, str), stdout=subprocess.PIPE, stderr=subprocess.STDOUT, text=True, timeout=timeout)
    return p.returncode, p.stdout


def restore():
    sh("git checkout -q -- . && git clean -fdq", cwd=REPO)


def clean_state():
    rc, o = sh("git status --porcelain", cwd=REPO)
    return o.strip() == ""


def demo(name, d):
    """runs the demonstration against /repo as it is now; returns (ran, passed, output)"""
    f = os.path.join(d, "demo_test.go")
    if os.path.exists(f):
        first = open(f).readline()
        m = re.search(r"dir:\s*(\S+)", first)
        sub = m.group(1) if m else "parser"
        sub = "" if sub in (".", "./") else sub
        dst = os.path.join(REPO, sub, "zz_seeded_demo_test.go")
        shutil.copyfile(f, dst)
        try:
            race = ""
            try:
                if "-race" in json.load(open(os.path.join(d, "meta.json"))).get("how_to_run_demo", ""):
                    race = "-race "
            except Exception:
                pass
            rc, o = sh("go test %s-count=1 -run 'Test' ./%s" % (race, sub or "."), cwd=REPO, timeout=900)
        finally:
            os.remove(dst)
        return True, rc == 0, o[-1500:]
    dd = os.path.join(d, "demo")
    if os.path.isdir(dd):
        tmp = "/tmp/seeded_demo_" + name
        shutil.rmtree(tmp, ignore_errors=True)
        shutil.copytree(dd, tmp)
        gm = os.path.join(tmp, "go.mod")
        s = open(gm).read()
        s = re.sub(r"(replace github.com/nikunjy/rules\s*=>\s*)\S+", r"\1" + REPO, s)
        open(gm, "w").write(s)
        shutil.copyfile(os.path.join(REPO, "go.sum"), os.path.join(tmp, "go.sum"))
        rc, o = sh("go run -race .", cwd=tmp, timeout=900)
        shutil.rmtree(tmp, ignore_errors=True)
        return True, rc == 0, o[-1500:]
    return False, False, "no demonstration found"


def _term(signum, frame):
    restore()
    sys.exit(3)


def main():
    import signal
    signal.signal(signal.SIGTERM, _term)
    signal.signal(signal.SIGINT, _term)
    mode = sys.argv[1] if len(sys.argv) > 1 else "run"
    global SEEDED
    for a in sys.argv[2:]:
        if a.startswith("--dir="):
            SEEDED = os.path.join(ROOT, a[6:])
    args = [a for a in sys.argv[2:] if not a.startswith("--")]
    allchecks = "--all" in sys.argv
    names = sorted(n for n in os.listdir(SEEDED) if os.path.isdir(os.path.join(SEEDED, n)) and os.path.exists(os.path.join(SEEDED, n, "patch.diff")) and (not args or n in args or n.split("-")[0] in args))
    if not clean_state():
        print("refusing: /repo has uncommitted changes")
        sys.exit(2)
    report = {}
    for name in names:
        d = os.path.join(SEEDED, name)
        patch = os.path.join(d, "patch.diff")
        prop = name.split("-")[0]
        if not re.match(r"C\d\d$", prop):
            prop = "C01"  # behaviour-preserving changes: no property is expected to fire; --all runs every check
        row = {"property": prop}
        try:
            if mode == "confirm":
                ran, ok0, o0 = demo(name, d)
                row["demo_passes_without_patch"] = ok0
                rc, o = sh(["git", "apply", patch], cwd=REPO)
                if rc != 0:
                    row["error"] = "patch does not apply: " + o[-300:]
                    continue
                rc, o = sh("go build ./... && go test -count=1 ./...", cwd=REPO, timeout=900)
                row["suite_passes_with_patch"] = rc == 0
                if rc != 0:
                    row["suite_output"] = o[-600:]
                ran, ok1, o1 = demo(name, d)
                row["demo_fails_with_patch"] = ran and not ok1
                if not (ran and not ok1):
                    row["demo_output"] = o1[-600:]
            else:
                rc, o = sh(["git", "apply", patch], cwd=REPO)
                if rc != 0:
                    row["error"] = "patch does not apply: " + o[-300:]
                    continue
                props = [prop] + ([("C%02d" % i) for i in range(1, 21) if ("C%02d" % i) != prop] if allchecks else [])
                for p in props:
                    t0 = time.time()
                    rc, o = sh([os.path.join(ROOT, "check"), p, "quick"], cwd=ROOT, timeout=3600)
                    lines = [l for l in o.splitlines() if l.startswith("VIOLATION")]
                    row[p] = {"exit": rc, "violations": len(lines), "no_input": any("no-failing-input-found" in l for l in lines), "s": round(time.time() - t0, 1)}
                    if p == prop:
                        row["detected"] = rc == 1
                        row["first"] = lines[0] if lines else o.strip().splitlines()[-1][:300] if o.strip() else ""
        finally:
            restore()
        report[name] = row
        print(name, json.dumps(row), flush=True)
    json.dump(report, open(os.path.join(ROOT, "work", "mutants_%s.json" % mode), "w"), indent=1)
    if mode == "run":
        det = [n for n, r in report.items() if r.get("detected")]
        print("detected %d / %d" % (len(det), len(report)))
        print("missed:", [n for n, r in report.items() if not r.get("detected")])


if __name__ == "__main__":
    main()
