#!/usr/bin/env python3
"""tools/rebase_seeded.py: re-bases the kept changes whose patch no longer applies to /repo's HEAD (after a `fix:` commit)
in a scratch worktree: 3-way apply, conflicts resolved by taking the change's side adapted to the repaired lines; the
original patch is kept as patch.<old-head>.diff. Every re-based change must be confirmed again (tools/mutants.py confirm)."""
import os, re, subprocess, sys, shutil
ROOT = os.path.dirname(os.path.dirname(os.path.abspath(__file__)))
ENV = dict(os.environ, GOFLAGS="-mod=mod", GOPROXY="off", GOSUMDB="off", GOTOOLCHAIN="local")
WT = "/tmp/rebase_wt"
def sh(cmd, cwd=None):
    p = subprocess.run(cmd, cwd=cwd, env=ENV, shell=True, stdout=subprocess.PIPE, stderr=subprocess.STDOUT, text=True)
    return p.returncode, p.stdout
def resolve(path):
    s = open(path).read()
    def res(m):
        ours, theirs = m.group(1), m.group(2)
        t = theirs
        if "visitor = " in ours:
            t = re.sub(r"\bvisitor := ", "visitor = ", t)
        if "marshalVals(" in ours:
            t = t.replace("json.Marshal(e.Vals.Dupe())", "marshalVals(e.Vals.Dupe())")
        return t
    s2 = re.sub(r"<<<<<<< ours\n(.*?)=======\n(.*?)>>>>>>> theirs\n", res, s, flags=re.S)
    open(path, "w").write(s2)
old = sys.argv[1]
names = sys.argv[2:]
sh("git -C /repo worktree remove --force %s" % WT)
sh("git -C /repo worktree add --detach %s HEAD" % WT)
for name in names:
    d = None
    for base in ("seeded", "seeded_harmless"):
        if os.path.exists(os.path.join(ROOT, base, name, "patch.diff")):
            d = os.path.join(ROOT, base, name)
    sh("git reset -q --hard HEAD && git clean -fdq", cwd=WT)
    rc, o = sh("git apply --3way %s/patch.diff" % d, cwd=WT)
    rc2, files = sh("git diff --name-only --diff-filter=U", cwd=WT)
    for f in files.split():
        resolve(os.path.join(WT, f))
    sh("git add -A", cwd=WT)
    rc3, diff = sh("git diff --cached HEAD", cwd=WT)
    rcb, ob = sh("go build ./... 2>&1 | head -20", cwd=WT)
    for attempt in range(3):
        if rcb == 0 and not ob.strip():
            break
        # small mechanical repairs of what the resolution leaves behind
        for f, pat, fix in [("parser/nester_error.go", '"errors" imported and not used', lambda x: x.replace('\t"errors"\n', "", 1)),
                            ("parser/nester_error.go", '"encoding/json" imported and not used', lambda x: x.replace('\t"encoding/json"\n', "", 1)),
                            ("parser/nester_error.go", "undefined: errors", lambda x: x.replace('import (\n', 'import (\n\t"errors"\n', 1)),
                            ("parser/evaluate.go", "undefined: visitor", lambda x: x.replace("\te.lastDebugErr = nil\n", "\te.lastDebugErr = nil\n\tvar visitor *JsonQueryVisitorImpl\n", 1) if "var visitor" not in x else x)]:
            if pat in ob:
                p = os.path.join(WT, f)
                txt = fix(open(p).read())
                open(p, "w").write(txt)
        sh("gofmt -w parser/*.go *.go", cwd=WT)
        rcb, ob = sh("go build ./... 2>&1 | head -20", cwd=WT)
    sh("git add -A", cwd=WT)
    rc3, diff = sh("git diff --cached HEAD", cwd=WT)
    if ob.strip():
        rcb = 1
    if "<<<<<<<" in diff or rcb != 0 or not diff.strip():
        print(name, "NEEDS MANUAL WORK:", (o + ob)[-300:].replace("\n", " | "))
        continue
    shutil.copyfile(os.path.join(d, "patch.diff"), os.path.join(d, "patch.%s.diff" % old))
    open(os.path.join(d, "patch.diff"), "w").write(diff)
    print(name, "rebased (%d conflict files)" % len(files.split()))
sh("git -C /repo worktree remove --force %s" % WT)
