#!/usr/bin/env python3
"""tools/visitor_tie_matrix.py [dir ...]: for every kept change (seeded/, seeded_harmless/) that touches
parser/jsonquery_visitor_impl.go: apply it in a scratch worktree of /repo, run the translator, and re-check
Proofs/VisitorGen against the translated functions. Prints one row per change: translated? proved? Restores
Generated/Visitor.lean from /repo afterwards. (A measurement for DESIGN 4.4, not a check.)"""
import json, os, subprocess, sys, shutil
ROOT = os.path.dirname(os.path.dirname(os.path.abspath(__file__)))
ENV = dict(os.environ, GOFLAGS="-mod=mod", GOPROXY="off", GOSUMDB="off", GOTOOLCHAIN="local")
WT = "/tmp/vtm_wt"

def sh(cmd, cwd=None):
    p = subprocess.run(cmd, cwd=cwd, env=ENV, shell=True, stdout=subprocess.PIPE, stderr=subprocess.STDOUT, text=True)
    return p.returncode, p.stdout

def translate(repo):
    out = os.path.join(ROOT, "work", "vtm_gen")
    shutil.rmtree(out, ignore_errors=True)
    rc, o = sh("%s %s %s %s" % (os.path.join(ROOT, "work/bin/extract"), repo, out, os.path.join(ROOT, "work/vtm.json")))
    f = json.load(open(os.path.join(ROOT, "work/vtm.json")))
    unsup = {"visitor": [r for r in f["visitor_gen"] if r[1].startswith("unsupported")], "ops": [r for r in f["ops_gen"] if r[1].startswith("unsupported")]}
    for n in ("Visitor.lean", "Ops.lean"):
        shutil.copyfile(os.path.join(out, n), os.path.join(ROOT, "lean/RulesModel/Generated", n))
    return unsup

def main():
    dirs = sys.argv[1:] or ["seeded", "seeded_harmless"]
    rows = {}
    sh("git -C /repo worktree remove --force %s" % WT)
    sh("git -C /repo worktree add --detach %s HEAD" % WT)
    try:
        for d in dirs:
            for name in sorted(os.listdir(os.path.join(ROOT, d))):
                patch = os.path.join(ROOT, d, name, "patch.diff")
                if not os.path.exists(patch):
                    continue
                ptxt = open(patch).read()
                parts = [p for p, pat in (("visitor", "jsonquery_visitor_impl.go"), ("ops", "operation.go")) if pat in ptxt]
                if not parts:
                    continue
                sh("git checkout -q -- . && git clean -fdq", cwd=WT)
                rc, o = sh("git apply %s" % patch, cwd=WT)
                if rc != 0:
                    rows[name] = "patch does not apply"
                    continue
                unsup = translate(WT)
                res = []
                for part in parts:
                    if unsup[part]:
                        res.append(part + " untranslatable: " + unsup[part][0][0] + ": " + unsup[part][0][1][13:70])
                    else:
                        rc, o = sh("lake build RulesModel.Proofs.%s" % ("VisitorGen" if part == "visitor" else "OpsGen"), cwd=os.path.join(ROOT, "lean"))
                        res.append(part + (" proved" if rc == 0 else " proof fails"))
                rows[name] = "; ".join(res)
                print(name, rows[name], flush=True)
    finally:
        sh("git -C /repo worktree remove --force %s" % WT)
        translate("/repo")
        sh("lake build RulesModel.Proofs.VisitorGen RulesModel.Proofs.OpsGen", cwd=os.path.join(ROOT, "lean"))
    json.dump(rows, open(os.path.join(ROOT, "work", "visitor_tie_matrix.json"), "w"), indent=1)

main()
